(* CrashProofs.v — C07, part A: "durable never ahead" holds after EVERY sequence of guarded micro operations,
   user operations and crashes (induction over the sequence: every write boundary is a crash point). *)
From Coq Require Import NArith List Bool Arith Lia.
From CS Require Import Sx CrashModel.
Import ListNotations.

(* ------------------------------------------------------------------ lists *)
Lemma nth_set_nth_eq {T} : forall (l : list T) n x y, nth_error l n = Some y -> nth_error (set_nth n x l) n = Some x.
Proof. induction l as [|a l IH]; intros [|n] x y H; simpl in *; try discriminate; eauto. Qed.

Lemma nth_set_nth_ne {T} : forall (l : list T) n m x, n <> m -> nth_error (set_nth n x l) m = nth_error l m.
Proof.
  induction l as [|a l IH]; intros [|n] [|m] x H; simpl; try reflexivity; try congruence.
  apply IH. congruence.
Qed.

Lemma in_set_nth {T} : forall (l : list T) n x z, In z (set_nth n x l) -> z = x \/ In z l.
Proof.
  induction l as [|a l IH]; intros [|n] x z H; simpl in *; try tauto.
  - destruct H as [H|H]; [left; congruence|tauto].
  - destruct H as [H|H]; [tauto|]. destruct (IH _ _ _ H); tauto.
Qed.

Lemma forall_set_nth {T} (P : T -> Prop) : forall (l : list T) n x,
  Forall P l -> P x -> Forall P (set_nth n x l).
Proof.
  intros l n x Hl Hx. apply Forall_forall. intros z Hz.
  destruct (in_set_nth _ _ _ _ Hz) as [->|Hin]; [assumption|]. rewrite Forall_forall in Hl. auto.
Qed.

Lemma length_set_nth {T} : forall (l : list T) n x, length (set_nth n x l) = length l.
Proof. induction l as [|a l IH]; intros [|n] x; simpl; auto. Qed.

(* ------------------------------------------------------------------ history only grows *)
Definition grows (o o' : obj) : Prop :=
  (forall h, had_hash o h = true -> had_hash o' h = true) /\ (forall p, had_path o p = true -> had_path o' p = true).

Lemma grows_refl o : grows o o.
Proof. split; auto. Qed.

Lemma grows_push o s ev : grows o (push o s ev).
Proof.
  split; intros x H; unfold had_hash, had_path, states, push in *; simpl in *;
    apply orb_true_iff; right; exact H.
Qed.

Definition ogrows (a b : option obj) : Prop :=
  match a with None => True | Some o => exists o', b = Some o' /\ grows o o' end.

Lemma ogrows_refl a : ogrows a a.
Proof. destruct a; simpl; eauto using grows_refl. Qed.

Lemma na_side_mono x y ox oy ox' oy' d d' :
  ogrows ox ox' -> ogrows oy oy' -> (d = true -> d' = true) ->
  na_side_s x y ox oy d = true -> na_side_s x y ox' oy' d' = true.
Proof.
  intros Hx Hy Hd. unfold na_side_s. destruct (negb (s_has x)); [auto|].
  destruct ox as [o|].
  - destruct Hx as [o' [-> [Gh Gp]]].
    intros H. apply andb_true_iff in H as [H1 H2]. apply andb_true_iff. split.
    + destruct (s_shash x) as [h|]; [|reflexivity].
      apply andb_true_iff in H1 as [Ha Hb]. apply andb_true_iff. split; [auto|].
      destruct (s_has y).
      * destruct oy as [q|]; [|discriminate]. destruct Hy as [q' [-> [Gh' _]]]. auto.
      * destruct d; [rewrite Hd; auto|discriminate].
    + destruct (s_spath x) as [p|]; [|reflexivity].
      apply andb_true_iff in H2 as [Ha Hb]. apply andb_true_iff. split; [auto|].
      destruct (s_has y); [|reflexivity].
      destruct oy as [q|]; [|discriminate]. destruct Hy as [q' [-> [_ Gp']]]. auto.
  - intros H. destruct (s_shash x); [discriminate|]. destruct (s_spath x); [discriminate|].
    destruct ox'; reflexivity.
Qed.

Lemma na_row_mono x y ox oy ox' oy' d d' :
  ogrows ox ox' -> ogrows oy oy' -> (d = true -> d' = true) ->
  na_row_s x y ox oy d = true -> na_row_s x y ox' oy' d' = true.
Proof.
  intros Hx Hy Hd H. unfold na_row_s in *. apply andb_true_iff in H as [H1 H2].
  apply andb_true_iff. split; eapply na_side_mono; eauto.
Qed.

Lemma na_side_s_weak x y ox oy d : na_side_s x y ox oy d = true -> na_side x y ox oy d = true.
Proof.
  unfold na_side_s, na_side. destruct (negb (s_has x)); [auto|]. destruct ox as [o|]; [|auto].
  intros H. apply andb_true_iff in H as [H1 H2]. apply andb_true_iff. split.
  - destruct (s_shash x) as [h|]; [|reflexivity]. apply andb_true_iff in H1 as [Ha Hb]. rewrite Ha. simpl.
    destruct (s_has y); [|assumption]. rewrite Hb. apply orb_true_r.
  - destruct (s_spath x) as [p|]; [|reflexivity]. apply andb_true_iff in H2 as [Ha Hb]. rewrite Ha. simpl.
    destruct (s_has y); [|reflexivity]. rewrite Hb. apply orb_true_r.
Qed.

Lemma na_row_s_weak x y ox oy d : na_row_s x y ox oy d = true -> na_row x y ox oy d = true.
Proof.
  unfold na_row_s, na_row. intros H. apply andb_true_iff in H as [A B]. apply andb_true_iff.
  split; now apply na_side_s_weak.
Qed.

(* ------------------------------------------------------------------ the invariant *)
Definition peer_of (e : ent) (ps : list obj) : option obj :=
  if s_has (e_peer e) then nth_error ps (e_ref e) else None.
Definition ent_na1 (e : ent) (sl : slot) : Prop :=
  s_has (e_org e) = true /\
  na_row_s (e_org e) (e_peer e) (Some (sl_org sl)) (peer_of e (sl_peers sl)) (e_disc e) = true.
(* the entry accounts for the object: it carries the change mark or describes the object as it is *)
Definition ent_acc (e : ent) (sl : slot) : Prop :=
  s_changed (e_org e) = true \/ uptodate (e_org e) (o_now (sl_org sl)) = true.

Definition slot_inv (x : st) (sl : slot) : Prop :=
  let s := sl_side sl in
  o_ev (sl_org sl) <= sel s (nev x) /\
  (forall r, sl_row sl = Some r -> ent_na1 r sl) /\
  (forall e, sl_mem sl = Some e -> ent_na1 e sl) /\
  (o_ev (sl_org sl) <= sel s (mcur x) -> exists r, sl_row sl = Some r /\ ent_acc r sl) /\
  (forall e, sl_mem sl = Some e -> o_ev (sl_org sl) <= sel s (mcur x) -> ent_acc e sl) /\
  (sl_dirty sl = false -> sl_mem sl = sl_row sl).

Definition cur_inv (x : st) : Prop :=
  forall s, sel s (dcur x) <= sel s (mcur x) /\ sel s (mcur x) <= sel s (nev x).

Definition inv (x : st) : Prop := cur_inv x /\ Forall (slot_inv x) (slots x).

Ltac splits6 := split; [|split; [|split; [|split; [|split]]]].

Lemma sel_upd_same {T} s (v : T) p : sel s (upd s v p) = v.
Proof. destruct s; reflexivity. Qed.
Lemma sel_upd_other {T} s (v : T) p : sel (negb s) (upd s v p) = sel (negb s) p.
Proof. destruct s; reflexivity. Qed.
Lemma sel_upd {T} s t (v : T) p : sel t (upd s v p) = if Bool.eqb t s then v else sel t p.
Proof. destruct s, t; reflexivity. Qed.

Lemma inv_init : inv init.
Proof. split; [intros [|]; simpl; lia|constructor]. Qed.

(* the slot-level part of the invariant does not look at the other slots; it depends on the state only through
   the counters *)
Definition cnt_le (x y : st) : Prop :=
  mcur y = mcur x /\ forall s, sel s (nev x) <= sel s (nev y).

Lemma slot_inv_counters x y sl : cnt_le x y -> slot_inv x sl -> slot_inv y sl.
Proof.
  intros [Hm Hn] (H0 & H1 & H2 & H3 & H4 & H5). unfold slot_inv. rewrite Hm.
  splits6; auto. specialize (Hn (sl_side sl)). lia.
Qed.

(* ------------------------------------------------------------------ entries keep NA1 when objects grow *)
Lemma ent_na1_grows e sl sl' :
  grows (sl_org sl) (sl_org sl') ->
  (forall k o, nth_error (sl_peers sl) k = Some o -> exists o', nth_error (sl_peers sl') k = Some o' /\ grows o o') ->
  ent_na1 e sl -> ent_na1 e sl'.
Proof.
  intros Ho Hp [Hh Hn]. split; [assumption|].
  eapply na_row_mono; [| |intros H; exact H|exact Hn].
  - simpl. eauto.
  - unfold peer_of. destruct (s_has (e_peer e)); [|exact I].
    destruct (nth_error (sl_peers sl) (e_ref e)) as [o|] eqn:E; simpl; [|exact I].
    destruct (Hp _ _ E) as [o' [-> G]]. eauto.
Qed.

Lemma peers_grow_set ps k p p' :
  nth_error ps k = Some p -> grows p p' ->
  forall j o, nth_error ps j = Some o -> exists o', nth_error (set_nth k p' ps) j = Some o' /\ grows o o'.
Proof.
  intros Hk G j o Hj. destruct (Nat.eq_dec k j) as [->|Hne].
  - rewrite (nth_set_nth_eq _ _ _ _ Hk). rewrite Hk in Hj. injection Hj as <-. eauto.
  - rewrite nth_set_nth_ne by assumption. eauto using grows_refl.
Qed.

Lemma peers_grow_app ps q :
  forall j o, nth_error ps j = Some o -> exists o', nth_error (ps ++ q) j = Some o' /\ grows o o'.
Proof.
  intros j o Hj. exists o. split; [|apply grows_refl].
  rewrite nth_error_app1; [assumption|]. apply nth_error_Some. congruence.
Qed.

Lemma peers_grow_id ps :
  forall j o, nth_error ps j = Some o -> exists o', nth_error ps j = Some o' /\ grows o o'.
Proof. intros j o Hj. eauto using grows_refl. Qed.

(* ------------------------------------------------------------------ one slot operation *)
Lemma opt_eqb_eq a b : opt_eqb a b = true -> a = b.
Proof.
  destruct a, b; simpl; try discriminate; auto. intros H. apply N.eqb_eq in H. congruence.
Qed.
Lemma opt_eqb_refl a : opt_eqb a a = true.
Proof. destruct a; simpl; auto. apply N.eqb_refl. Qed.
Lemma kind_eqb_eq a b : kind_eqb a b = true -> a = b.
Proof. destruct a, b; simpl; try discriminate; auto. intros H. apply N.eqb_eq in H. congruence. Qed.
Lemma kind_eqb_refl a : kind_eqb a a = true.
Proof. destruct a; simpl; auto. apply N.eqb_refl. Qed.
Lemma eqb_bool_eq a b : Bool.eqb a b = true -> a = b.
Proof. apply eqb_prop. Qed.

Lemma fresh_uptodate e o : fresh e o = true -> uptodate (e_org e) (o_now o) = true.
Proof.
  unfold fresh, uptodate. intros H.
  apply andb_true_iff in H as [H Hl]. apply andb_true_iff in H as [H Hh]. apply andb_true_iff in H as [_ Hp].
  rewrite Hl, Hp, Hh. simpl. apply orb_true_r.
Qed.

Lemma had_hash_now o : match os_kind (o_now o) with KFile c => had_hash o c = true | KDir => True end.
Proof. unfold had_hash, states. simpl. destruct (os_kind (o_now o)); [|exact I]. now rewrite N.eqb_refl. Qed.
Lemma had_path_now o : had_path o (os_path (o_now o)) = true.
Proof. unfold had_path, states. simpl. now rewrite N.eqb_refl. Qed.

Lemma na_side_synced a b oa ob d :
  os_path (o_now oa) = os_path (o_now ob) -> os_kind (o_now oa) = os_kind (o_now ob) ->
  na_side_s (synced_side (o_now a)) (synced_side (o_now b)) (Some oa) (Some ob) d = true ->
  True.
Proof. auto. Qed.

Lemma na_row_link org p :
  os_path (o_now p) = os_path (o_now org) -> os_kind (o_now p) = os_kind (o_now org) ->
  na_row_s (synced_side (o_now org)) (synced_side (o_now p)) (Some org) (Some p) false = true.
Proof.
  intros Hp Hk. unfold na_row_s, na_side_s, synced_side. simpl.
  pose proof (had_hash_now org) as H1. pose proof (had_hash_now p) as H2.
  pose proof (had_path_now org) as H3. pose proof (had_path_now p) as H4.
  rewrite Hk in *. rewrite Hp in *. rewrite H3, H4.
  destruct (os_kind (o_now org)); simpl; [rewrite H1, H2|]; reflexivity.
Qed.

Lemma reflects_eq p s : reflects p s = true ->
  os_path p = os_path s /\ os_kind p = os_kind s /\ os_live p = true /\ os_conf p = false.
Proof.
  unfold reflects. intros H.
  apply andb_true_iff in H as [H Hc]. apply andb_true_iff in H as [H Hl]. apply andb_true_iff in H as [Hp Hk].
  apply N.eqb_eq in Hp. apply kind_eqb_eq in Hk. apply negb_true_iff in Hc. auto.
Qed.

(* entries whose sync marks, link and discard flag are those of e (only "known state" fields differ) *)
Definition same_marks (e e' : ent) : Prop :=
  s_has (e_org e') = true /\ s_shash (e_org e') = s_shash (e_org e) /\ s_spath (e_org e') = s_spath (e_org e) /\
  s_has (e_peer e') = s_has (e_peer e) /\ s_shash (e_peer e') = s_shash (e_peer e) /\
  s_spath (e_peer e') = s_spath (e_peer e) /\ e_ref e' = e_ref e /\ (e_disc e = true -> e_disc e' = true).

Lemma ent_na1_same_marks e e' sl : same_marks e e' -> ent_na1 e sl -> ent_na1 e' sl.
Proof.
  intros (A & B & C & D & E & F & G & H) [Hh Hn]. split; [assumption|].
  unfold na_row_s, na_side_s, peer_of in *. rewrite A, B, C, D, E, F, G. rewrite Hh in Hn.
  apply andb_true_iff in Hn as [N1 N2]. apply andb_true_iff. simpl in *.
  split.
  - destruct (s_shash (e_org e)); destruct (s_spath (e_org e)); simpl in *; auto;
      destruct (s_has (e_peer e)); auto;
      repeat rewrite andb_true_iff in *; intuition; destruct (e_disc e); try discriminate; rewrite H; auto.
  - destruct (s_has (e_peer e)); auto.
Qed.

(* a slot operation: the new slot satisfies the invariant (counters of the state around it: np may grow) *)
Definition slot_step_ok (x : st) (sl sl' : slot) : Prop := slot_inv x sl -> slot_inv x sl' /\ sl_side sl' = sl_side sl.

Ltac inv_some := match goal with H : Some _ = Some _ |- _ => injection H as <- end.

Lemma with_peers_inv x sl ps :
  (forall k o, nth_error (sl_peers sl) k = Some o -> exists o', nth_error ps k = Some o' /\ grows o o') ->
  slot_inv x sl -> slot_inv x (with_peers sl ps).
Proof.
  intros Hg (H0 & H1 & H2 & H3 & H4 & H5). unfold slot_inv, with_peers; simpl.
  splits6; auto.
  - intros r Hr. apply (ent_na1_grows r sl); [apply grows_refl|exact Hg|]. auto.
  - intros e He. apply (ent_na1_grows e sl); [apply grows_refl|exact Hg|]. auto.
Qed.

Lemma sexec_inv x np o sl sl' : sexec np o sl = Some sl' -> slot_inv x sl -> slot_inv x sl' /\ sl_side sl' = sl_side sl.
Proof.
  intros Hex Hinv. pose proof Hinv as (H0 & H1 & H2 & H3 & H4 & H5).
  destruct o; simpl in Hex.
  - (* SMark *)
    inv_some. split; [|reflexivity]. unfold slot_inv, with_mem; simpl. splits6; auto; try discriminate.
    + intros e He. inv_some. destruct (sl_mem sl) as [e0|] eqn:Em.
      * eapply ent_na1_same_marks; [|apply H2; reflexivity]. unfold same_marks, marked; simpl. tauto.
      * split; reflexivity.
    + intros e He _. inv_some. left. destruct (sl_mem sl); reflexivity.
  - (* SRefresh *)
    destruct (sl_mem sl) as [e0|] eqn:Em; [|discriminate]. inv_some. split; [|reflexivity].
    unfold slot_inv, with_mem; simpl. splits6; auto; try discriminate.
    + intros e He. inv_some. eapply ent_na1_same_marks; [|apply H2; reflexivity].
      unfold same_marks, refreshed; simpl. tauto.
    + intros e He _. inv_some. right. unfold uptodate, refreshed; simpl.
      rewrite eqb_reflx, N.eqb_refl, opt_eqb_refl. simpl. apply orb_true_r.
  - (* SPCreate *)
    destruct (sl_mem sl) as [e0|]; [|discriminate]. destruct (_ && _); [|discriminate]. inv_some.
    split; [|reflexivity]. apply with_peers_inv; [apply peers_grow_app|assumption].
  - (* SPUpload *)
    destruct (sl_mem sl) as [e0|]; [|discriminate]. destruct (nth_error (sl_peers sl) k) as [p|] eqn:Ep; [|discriminate].
    destruct (_ && _); [|discriminate]. inv_some. split; [|reflexivity].
    apply with_peers_inv; [|assumption]. eapply peers_grow_set; [eassumption|apply grows_push].
  - (* SPRename *)
    destruct (sl_mem sl) as [e0|]; [|discriminate]. destruct (nth_error (sl_peers sl) k) as [p|] eqn:Ep; [|discriminate].
    destruct (_ && _); [|discriminate]. inv_some. split; [|reflexivity].
    apply with_peers_inv; [|assumption]. eapply peers_grow_set; [eassumption|apply grows_push].
  - (* SPDelete *)
    destruct (sl_mem sl) as [e0|]; [|discriminate]. destruct (nth_error (sl_peers sl) k) as [p|] eqn:Ep; [|discriminate].
    destruct (_ && _); [|discriminate]. inv_some. split; [|reflexivity].
    apply with_peers_inv; [|assumption]. eapply peers_grow_set; [eassumption|apply grows_push].
  - (* SPConflict *)
    destruct (sl_mem sl) as [e0|]; [|discriminate]. destruct (nth_error (sl_peers sl) k) as [p|] eqn:Ep; [|discriminate].
    destruct (_ && _); [|discriminate]. inv_some. split; [|reflexivity].
    apply with_peers_inv; [|assumption]. eapply peers_grow_set; [eassumption|apply grows_push].
  - (* SLink *)
    destruct (sl_mem sl) as [e0|] eqn:Em; [|discriminate]. destruct (nth_error (sl_peers sl) k) as [p|] eqn:Ep; [|discriminate].
    destruct (_ && _) eqn:G; [|discriminate]. inv_some. split; [|reflexivity].
    apply andb_true_iff in G as [G Gd]. apply andb_true_iff in G as [G Gr]. apply andb_true_iff in G as [Gf Gl].
    apply reflects_eq in Gr as (Rp & Rk & Rl & Rc).
    unfold slot_inv, with_mem; simpl. splits6; auto; try discriminate.
    + intros e He. inv_some. split; [reflexivity|]. simpl. unfold peer_of; simpl. rewrite Ep.
      apply na_row_link; assumption.
    + intros e He _. inv_some. right. unfold uptodate, synced_side; simpl.
      rewrite Gl, N.eqb_refl, opt_eqb_refl. reflexivity.
  - (* SDiscard *)
    destruct (sl_mem sl) as [e0|] eqn:Em; [|discriminate]. destruct (_ && _) eqn:G; [|discriminate]. inv_some.
    split; [|reflexivity].
    apply andb_true_iff in G as [G Ga]. apply andb_true_iff in G as [Gf Gl]. apply negb_true_iff in Gl.
    unfold slot_inv, with_mem; simpl. splits6; auto; try discriminate.
    + intros e He. inv_some. eapply ent_na1_same_marks; [|apply H2; reflexivity].
      unfold same_marks, unchanged; simpl. destruct (H2 _ eq_refl) as [Hh _]. tauto.
    + intros e He _. inv_some. right. unfold uptodate, unchanged; simpl. rewrite Gl. reflexivity.
  - (* SRow *)
    destruct (sl_mem sl) as [e0|] eqn:Em; [|discriminate]. inv_some. split; [|reflexivity].
    unfold slot_inv; simpl. splits6; auto.
    intros Hle. exists e0. split; [reflexivity|]. apply (H4 e0 eq_refl Hle).
Qed.

(* ------------------------------------------------------------------ every step keeps the invariant *)
Lemma slot_inv_nev x y sl :
  mcur y = mcur x -> (forall s, sel s (nev x) <= sel s (nev y)) -> slot_inv x sl -> slot_inv y sl.
Proof. intros. eapply slot_inv_counters; [split; eassumption|assumption]. Qed.

Lemma mstep_inv x m y : mstep x m = Some y -> inv x -> inv y.
Proof.
  intros Hs [Hc Hf]. destruct m as [i o|s|s]; simpl in Hs.
  - destruct (nth_error (slots x) i) as [sl|] eqn:Ei; [|discriminate].
    destruct (sexec _ o sl) as [sl'|] eqn:Ex; [|discriminate]. inv_some.
    assert (Hsl : slot_inv x sl) by (rewrite Forall_forall in Hf; apply Hf; eapply nth_error_In; eauto).
    destruct (sexec_inv x _ _ _ _ Ex Hsl) as [Hsl' Hside].
    set (y := {| slots := _; nev := _; mcur := _; dcur := _ |}).
    assert (Hm : mcur y = mcur x) by reflexivity.
    assert (Hn : forall s, sel s (nev x) <= sel s (nev y)).
    { intros s. subst y; simpl. destruct (is_provider_write o); [|lia]. rewrite sel_upd.
      destruct (Bool.eqb s (negb (sl_side sl))) eqn:E; [|lia]. apply eqb_prop in E. subst s. lia. }
    split.
    + intros s. destruct (Hc s) as [A B]. specialize (Hn s). subst y; simpl in *. split; lia.
    + subst y; simpl. apply forall_set_nth.
      * eapply Forall_impl; [|exact Hf]. intros a Ha. eapply slot_inv_nev; [exact Hm|exact Hn|exact Ha].
      * eapply slot_inv_nev; [exact Hm|exact Hn|exact Hsl'].
  - (* MAdv *)
    destruct (forallb _ (slots x)) eqn:G; [|discriminate]. inv_some.
    rewrite forallb_forall in G. split.
    + intros t. simpl. rewrite sel_upd. destruct (Hc t) as [A B]. destruct (Bool.eqb t s) eqn:E; [|split; lia].
      apply eqb_prop in E. subst t. split; lia.
    + apply Forall_forall. intros sl Hin. rewrite Forall_forall in Hf. pose proof (Hf sl Hin) as (H0 & H1 & H2 & H3 & H4 & H5).
      specialize (G sl Hin). unfold slot_inv; simpl. rewrite sel_upd.
      destruct (Bool.eqb (sl_side sl) s) eqn:E.
      * simpl in G. apply orb_true_iff in G. apply eqb_prop in E. subst s. splits6; auto.
        -- intros _. destruct G as [G|G]; [apply H3; apply Nat.leb_le; exact G|].
           unfold row_marked in G. destruct (sl_row sl) as [r|]; [|discriminate].
           apply andb_true_iff in G as [G _]. exists r. split; [reflexivity|left; exact G].
        -- intros e He _. destruct G as [G|G]; [apply H4; [assumption|apply Nat.leb_le; exact G]|].
           unfold row_marked in G. destruct (sl_row sl) as [r|] eqn:Er; [|discriminate].
           apply andb_true_iff in G as [G Gd]. apply negb_true_iff in Gd. rewrite (H5 Gd) in He. inv_some. left. exact G.
      * splits6; auto.
  - (* MCursor *)
    inv_some. split.
    + intros t. simpl. rewrite sel_upd. destruct (Hc t) as [A B]. destruct (Bool.eqb t s) eqn:E; [|split; lia].
      apply eqb_prop in E. subst t. split; lia.
    + eapply Forall_impl; [|exact Hf]. intros sl H. exact H.
Qed.

Lemma user_change_grows o u s' n : user_change o u = Some s' -> grows o (push o s' n).
Proof. intros _. apply grows_push. Qed.

Lemma user_slot_inv x i sl s' :
  nth_error (slots x) i = Some sl -> inv x ->
  inv {| slots := set_nth i (with_org sl (push (sl_org sl) s' (S (sel (sl_side sl) (nev x))))) (slots x);
         nev := upd (sl_side sl) (S (sel (sl_side sl) (nev x))) (nev x); mcur := mcur x; dcur := dcur x |}.
Proof.
  intros Ei [Hc Hf].
  assert (Hn : forall t, sel t (nev x) <= sel t (upd (sl_side sl) (S (sel (sl_side sl) (nev x))) (nev x))).
  { intros t. rewrite sel_upd. destruct (Bool.eqb t (sl_side sl)) eqn:E; [apply eqb_prop in E; subst t|]; lia. }
  split.
  - intros t. simpl. destruct (Hc t) as [A B]. specialize (Hn t). split; lia.
  - simpl. apply forall_set_nth.
    + eapply Forall_impl; [|exact Hf]. intros a Ha. apply (slot_inv_nev x); [reflexivity|exact Hn|exact Ha].
    + assert (Hsl : slot_inv x sl) by (rewrite Forall_forall in Hf; apply Hf; eapply nth_error_In; eauto).
      destruct Hsl as (H0 & H1 & H2 & H3 & H4 & H5).
      unfold slot_inv, with_org; simpl. rewrite sel_upd_same. destruct (Hc (sl_side sl)) as [A B].
      splits6; auto.
      * intros r Hr. apply (ent_na1_grows r sl); [apply grows_push|apply peers_grow_id|auto].
      * intros e He. apply (ent_na1_grows e sl); [apply grows_push|apply peers_grow_id|auto].
      * intros Hle. lia.
      * intros e He Hle. lia.
Qed.

Lemma user_inv x u : inv x -> inv (user x u).
Proof.
  intros Hi. destruct u as [s p k|i c|i p|i].
  - (* UNew *)
    destruct Hi as [Hc Hf]. simpl.
    assert (Hn : forall t, sel t (nev x) <= sel t (upd s (S (sel s (nev x))) (nev x))).
    { intros t. rewrite sel_upd. destruct (Bool.eqb t s) eqn:E; [apply eqb_prop in E; subst t|]; lia. }
    split.
    + intros t. simpl. destruct (Hc t) as [A B]. specialize (Hn t). split; lia.
    + simpl. apply Forall_app. split.
      * eapply Forall_impl; [|exact Hf]. intros sl H. apply (slot_inv_nev x); [reflexivity|exact Hn|exact H].
      * constructor; [|constructor]. unfold slot_inv; simpl. rewrite sel_upd_same.
        splits6; try discriminate; auto.
        intros Hle. destruct (Hc s) as [A B]. lia.
  - unfold user. simpl uop_slot. cbv iota. destruct (nth_error (slots x) i) as [sl|] eqn:Ei; [|assumption].
    destruct (user_change (sl_org sl) (UWrite i c)) as [s'|]; [|assumption]. now apply user_slot_inv.
  - unfold user. simpl uop_slot. cbv iota. destruct (nth_error (slots x) i) as [sl|] eqn:Ei; [|assumption].
    destruct (user_change (sl_org sl) (URename i p)) as [s'|]; [|assumption]. now apply user_slot_inv.
  - unfold user. simpl uop_slot. cbv iota. destruct (nth_error (slots x) i) as [sl|] eqn:Ei; [|assumption].
    destruct (user_change (sl_org sl) (UDelete i)) as [s'|]; [|assumption]. now apply user_slot_inv.
Qed.

Lemma crash_inv x : inv x -> inv (crash x).
Proof.
  intros [Hc Hf]. split.
  - intros t. simpl. destruct (Hc t). split; lia.
  - simpl. apply Forall_forall. intros sl' Hin. apply in_map_iff in Hin as [sl [<- Hin]].
    rewrite Forall_forall in Hf. destruct (Hf sl Hin) as (H0 & H1 & H2 & H3 & H4 & H5).
    unfold slot_inv, crash_slot; simpl. destruct (Hc (sl_side sl)) as [A B].
    splits6; auto.
    + intros Hle. apply H3. lia.
    + intros e He Hle. destruct H3 as [r [Hr Ha]]; [lia|]. rewrite Hr in He. injection He as <-. exact Ha.
Qed.

Theorem lrun_inv : forall ls x y, inv x -> lrun x ls = Some y -> inv y.
Proof.
  induction ls as [|l ls IH]; intros x y Hi Hr; simpl in Hr.
  - now injection Hr as <-.
  - destruct (lstep x l) as [z|] eqn:El; [|discriminate]. apply (IH z); [|assumption].
    destruct l as [u|m|]; simpl in El.
    + injection El as <-. now apply user_inv.
    + eapply mstep_inv; eauto.
    + injection El as <-. now apply crash_inv.
Qed.

(* the invariant gives "durable never ahead" *)
Lemma inv_never_ahead x : inv x -> never_ahead x = true.
Proof.
  intros [Hc Hf]. unfold never_ahead. apply forallb_forall. intros sl Hin.
  rewrite Forall_forall in Hf. destruct (Hf sl Hin) as (H0 & H1 & H2 & H3 & H4 & H5).
  unfold slot_never_ahead. apply andb_true_iff. split.
  - destruct (sl_row sl) as [r|] eqn:Er; [|reflexivity]. destruct (H1 r eq_refl) as [_ Hn].
    apply na_row_s_weak. exact Hn.
  - unfold na_obj, pending_ev. simpl.
    destruct (Nat.ltb (sel (sl_side sl) (dcur x)) (o_ev (sl_org sl))) eqn:El; [reflexivity|].
    apply Nat.ltb_ge in El. destruct (Hc (sl_side sl)) as [A B].
    destruct H3 as [r [Hr Ha]]; [lia|]. rewrite Hr. simpl. rewrite orb_false_r.
    destruct Ha as [Ha|Ha]; rewrite Ha; [reflexivity|apply orb_true_r].
Qed.

(* (a) for every sequence of guarded micro operations, user operations and crashes, hence at every write
   boundary of every run: durable never ahead *)
Theorem durable_never_ahead : forall ls x, lrun init ls = Some x -> never_ahead x = true.
Proof. intros ls x H. apply inv_never_ahead. eapply lrun_inv; [apply inv_init|exact H]. Qed.

Theorem durable_never_ahead_after_crash : forall ls x, lrun init ls = Some x -> never_ahead (crash x) = true.
Proof. intros ls x H. apply inv_never_ahead, crash_inv. eapply lrun_inv; [apply inv_init|exact H]. Qed.
