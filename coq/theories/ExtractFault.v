From Coq Require Import ExtrOcamlBasic.
From CS Require Import Sx FaultModel.
Definition run := FaultModel.run.
Extraction "extract/fault/model.ml" run.
