(* Extraction of the C18 loop model.  ExtrOcamlBasic only. *)
From Coq Require Import ExtrOcamlBasic.
From CS Require Import Sx LoopModel.
Definition run := LoopModel.run.
Extraction "extract/loop/model.ml" run.
