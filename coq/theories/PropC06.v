(* PropC06.v — C06: restart resumes from persisted state; offline changes are synchronised. *)
From Coq Require Import Arith NArith List Bool.
From CS Require Import Sx TreeModel Monitor MonitorProofs CursorModel CursorProofs.
Import ListNotations.

(* cursor mechanism, all action sequences (any number of restarts, lost or rejected cursors) *)
Theorem C06_restart_never_skips : forall l s,
  crun cinit l 0 = inl s -> forall s', cstep s CRestart = Some s' -> resume_safe s'.
Proof. exact restart_never_skips. Qed.
Print Assumptions C06_restart_never_skips.

Theorem C06_stored_cursor_never_ahead : forall l s c,
  crun cinit l 0 = inl s -> stored s = Some c -> c <= applied s \/ walked s = false.
Proof. exact stored_cursor_never_ahead. Qed.
Print Assumptions C06_stored_cursor_never_ahead.

Theorem C06_walk_covers : forall s s',
  cstep s CWalk = Some s' -> stored_or0 s' <= applied s' /\ need_walk s' = false /\ walked s' = true.
Proof. exact walk_covers. Qed.
Print Assumptions C06_walk_covers.

(* a cursor reset that leaves the 'walked' marker in storage (the behaviour before fix 3f7683c) is rejected *)
Theorem C06_legacy_reset_rejected :
  crun cinit [CNew; CStore 0; CWalk; CApplied 1; CStore 1; CNew; CNew; CLoseCursor; CRestart; CStore 3] 0 = inr 9.
Proof. exact legacy_reset_rejected. Qed.
Print Assumptions C06_legacy_reset_rejected.

Theorem C06_fixed_reset_accepted :
  exists s, crun cinit [CNew; CStore 0; CWalk; CApplied 1; CStore 1; CNew; CNew; CLoseCursor; CRestart;
                        CReset; CStore 3; CRestart; CWalk] 0 = inl s /\ applied s = 3.
Proof. exact fixed_reset_accepted. Qed.
Print Assumptions C06_fixed_reset_accepted.

(* outcome: restarts are invisible in the observation trace, so an accepted run with restarts ends, at every
   quiet report, with both views equal to the base tree with every user operation (made before a stop or
   while stopped) applied — "continues as if it had never stopped"; nothing already synchronised is
   transferred again (no provider write after a quiet report) and no conflicted artefact appears *)
Theorem C06_restart_transparent : forall cfg l r tr m',
  check_spec cfg = true -> accept cfg l r tr = inl m' ->
  forall pre x post, tr = pre ++ x :: post -> o_ev x = EQuiet ->
    same_tree (view (rootL cfg) (o_L x)) (apply_ops (view (rootL cfg) l) (rel_user_ops cfg pre)) = true /\
    same_tree (view (rootR cfg) (o_R x)) (apply_ops (view (rootL cfg) l) (rel_user_ops cfg pre)) = true.
Proof. exact quiet_views_are_history. Qed.
Print Assumptions C06_restart_transparent.

Theorem C06_no_retransfer_after_quiet : forall cfg l r tr m',
  accept cfg l r tr = inl m' ->
  forall pre x post s ts, tr = pre ++ x :: post -> o_ev x = EEng s ts ->
    exists ma, run_of cfg (init_state cfg l r) pre ma /\ quiet ma = false.
Proof.
  intros cfg l r tr m' Hacc pre x post s ts Heq He.
  apply accept_sound in Hacc.
  destruct (run_of_forall cfg (step_ok cfg) (fun _ _ _ H => H) _ _ _ Hacc pre x post Heq) as [ma [mb [Ha [Hb _]]]].
  destruct Hb as [_ Hb]. rewrite He in Hb. destruct Hb as (_ & _ & _ & _ & _ & Hq & _).
  exists ma. split; assumption.
Qed.
Print Assumptions C06_no_retransfer_after_quiet.
