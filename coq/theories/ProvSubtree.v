(* ProvSubtree.v — a successful guarded rename moves the subtree and nothing else
   (rename_moves_subtree), on top of ProvRename.relocated. *)
From Coq Require Import NArith List Bool Lia Arith.
From CS Require Import Sx Str PathLaws ProvModel ProvProofs ProvWf ProvMove ProvRename.
Import ListNotations.

Lemma rename_finish_ok c k prior r s2 s' k' : rename_finish c k prior r s2 = (s', Ok k') ->
  s' = s2 /\ exists o2, nth_error (p_heap s2) r = Some o2 /\ k' = o_oid o2 /\ (c_oidpath c = false -> o_oid o2 = k).
Proof.
  unfold rename_finish. destruct (nth_error (p_heap s2) r) as [o2|]; [|discriminate].
  destruct (c_oidpath c).
  - destruct (key_eqb (o_oid o2) prior); [discriminate|]. intros H. inversion H; subst.
    split; [reflexivity|]. exists o2. repeat split. discriminate.
  - destruct (key_eqb (o_oid o2) k) eqn:E; [|discriminate]. intros H. inversion H; subst.
    split; [reflexivity|]. exists o2. repeat split. intros _. apply key_eqb_eq. exact E.
Qed.

(* in the three sane flavours a key that leads to a live object is its oid or its normalised path *)
Lemma key_of_live_pathstyle s k r o : S_inv s -> c_oidpath (p_cfg s) = true ->
  dget k (p_dict s) = Some r -> nth_error (p_heap s) r = Some o -> o_oid o = k.
Proof.
  intros HS Hc Hd Ho. destruct k as [n|q].
  - destruct (s_id s HS _ _ Hd) as [X _]. congruence.
  - destruct (s_path s HS _ _ Hd) as [x [Hx Hq]]. rewrite Ho in Hx. inversion Hx; subst x.
    rewrite (s_oid s HS r o Ho), Hc.
    destruct (sane_cases _ (s_sane s HS)) as [X|[_ X]]; [congruence|]. rewrite (np_cs _ _ X) in Hq. congruence.
Qed.

(* the moved cells *)
Lemma moved_of_facts s k p r o s1 : S_inv s -> W_inv s -> get_live s k = Some (r, o) ->
  phase s k p r o s1 ->
  (forall q, In q (moved_of s1 o ++ [r]) -> exists x, nth_error (p_heap s1) q = Some x /\
       at_under (p_cfg s) (o_path o) (o_path x) /\
       dget (KPath (np (p_cfg s) (o_path x))) (p_dict s) = Some q) /\
  (forall q y, nth_error (p_heap s1) q = Some y -> o_exists y = true ->
       at_under (p_cfg s) (o_path o) (o_path y) -> In q (moved_of s1 o ++ [r])).
Proof.
  intros HS HW Hg [S1 W1 Ec Ed [o1 [Hr [Epath [Ekind _]]]] Ht Hlive Hsame].
  pose proof Hg as Hg'. apply get_live_spec in Hg' as [G1 [G2 G3]].
  assert (Hown : dget (KPath (np (p_cfg s) (o_path o))) (p_dict s) = Some r) by (apply (w_filed s HW r o G2 G3)).
  split.
  - intros q Hin. apply in_app_or in Hin as [Hin|[<-|[]]].
    + unfold moved_of in Hin. destruct (o_kind o); [destruct Hin|].
      apply in_moved_refs in Hin as [H0 [x [H1 H2]]]. exists x. split; [exact H1|].
      rewrite Ec in H2. split; [apply is_under_at_under; exact H2|].
      apply in_fs_refs in H0 as [P HP]. apply (in_dget _ _ _ (s_nodup s1 S1)) in HP.
      destruct (s_path s1 S1 _ _ HP) as [x' [Hx' Hq]]. rewrite H1 in Hx'. inversion Hx'; subst x'.
      rewrite Ec in Hq. rewrite Ed in HP. rewrite Hq. exact HP.
    + exists o1. split; [exact Hr|]. rewrite Epath. split; [apply at_under_refl|exact Hown].
  - intros q y Hy Hl AU. destruct (at_under_cases _ _ _ AU) as [[_ E]|E].
    + pose proof (w_filed s1 W1 q y Hy Hl) as F. rewrite Ec, Ed, E, Hown in F. inversion F.
      apply in_or_app. right. left. reflexivity.
    + apply in_or_app. left. unfold moved_of. destruct (o_kind o) eqn:KO.
      * exfalso. rewrite <- Ec, <- Epath in E.
        destruct (live_top s1 (o_path o1) S1 W1 _ q y eq_refl Hy Hl E) as [q0 [y0 [T1 [T2 [T3 T4]]]]].
        rewrite Ec, Ed, Epath, Hown in T1. inversion T1; subst q0. rewrite Hr in T2. inversion T2; subst y0. congruence.
      * apply in_moved_refs. split; [eapply live_in_fs_refs; eassumption|]. exists y. rewrite Ec. auto.
Qed.

(* a successful rename that is not a no-op: the phase, the relocation, the returned oid *)
Lemma rename_success_char s k p s' k' r o : S_inv s -> W_inv s -> guard_op s (ORename k p) = true ->
  get_live s k = Some (r, o) -> rename s k p = (s', Ok k') -> path_eqb (o_path o) p = false ->
  exists s1 s3, phase s k p r o s1 /\ relocated s1 r (o_path o) p (moved_of s1 o ++ [r]) s3 /\
                same_core s3 s' /\ nth_error (p_heap s1) r = Some o /\
                k' = (if c_oidpath (p_cfg s) then KPath p else o_oid o).
Proof.
  intros HS HW Hgd Hg Hren Hpe. rewrite rename_unfold, Hg in Hren. simpl in Hgd. rewrite Hg in Hgd.
  apply andb_true_iff in Hgd as [Hnr Hnu]. apply negb_true_iff in Hnu.
  assert (Hp : p <> []) by (destruct p; [discriminate|congruence]).
  destruct (verify_parent s p) eqn:Hv; [discriminate|].
  destruct (rename_conflict s o (conflict_at s k p)) eqn:Hc; [discriminate|].
  destruct (rename_del s (conflict_at s k p)) as [s1 [u|e]] eqn:Hd; [|discriminate].
  pose proof (pc_phase s k p r o s1 u HS HW Hg Hp Hc Hd) as PH.
  unfold rename_move in Hren. rewrite Hpe in Hren.
  destruct p as [|a t]; [congruence|].
  destruct (ph_cell _ _ _ _ _ _ PH) as [o1 [Hr [Epath [Ekind [Eoid [Edata Hcase]]]]]].
  (* both branches end alike *)
  assert (Fin : forall s3 s3', same_core s3' s3 ->
            relocated s1 r (o_path o) (a :: t) (moved_of s1 o ++ [r]) s3' ->
            rename_finish (p_cfg s) k (o_oid o) r s3 = (s', Ok k') ->
            exists s1 s3, phase s k (a :: t) r o s1 /\ relocated s1 r (o_path o) (a :: t) (moved_of s1 o ++ [r]) s3 /\
                same_core s3 s' /\ nth_error (p_heap s1) r = Some o /\
                k' = (if c_oidpath (p_cfg s) then KPath (a :: t) else o_oid o)).
  { intros s3 s3' SC RL HF. apply rename_finish_ok in HF as [-> [o2 [H2 [-> Hid]]]].
    destruct SC as [SC1 [SC2 SC3]].
    destruct RL as [W3 [C3 [Hmoved RLrest]]].
    assert (HinL : In r (moved_of s1 o ++ [r])) by (apply in_or_app; right; left; reflexivity).
    destruct (Hmoved r o1 HinL Hr) as [N1 _]. rewrite <- SC2 in N1. rewrite H2 in N1. inversion N1; subst o2.
    assert (Ok' : o_oid (mv (p_cfg s1) (o_path o) (a :: t) o1) = if c_oidpath (p_cfg s) then KPath (a :: t) else o_oid o).
    { simpl. rewrite (ph_cfg _ _ _ _ _ _ PH). destruct (c_oidpath (p_cfg s)); [|exact Eoid].
      unfold new_path. rewrite Epath, skipn_all, app_nil_r. reflexivity. }
    exists s1, s3'. split; [exact PH|]. split; [unfold relocated; auto|]. split; [repeat split; auto|].
    split; [|exact Ok'].
    destruct Hcase as [[-> _]|[Hdead [Hnp Hne]]]; [exact Hr|]. exfalso.
    pose proof Hg as Hg'. apply get_live_spec in Hg' as [G1 [G2 G3]].
    destruct (c_oidpath (p_cfg s)) eqn:Hcp.
    - apply Hne. eapply key_of_live_pathstyle; eassumption.
    - apply Hne. rewrite <- (Hid eq_refl). rewrite Ok'. reflexivity. }
  destruct (o_kind o) eqn:KO.
  - destruct (rename_single s1 r (a :: t) true) as [s2|] eqn:R; [|discriminate].
    assert (M0 : move_all s1 [] (o_path o1) (a :: t) = Some s1) by reflexivity.
    destruct (move_then_single s1 [] r o1 (a :: t) s1 s2 M0 (fun H => H) Hr R) as [s3' [Mv SC]].
    rewrite Epath in Mv.
    apply (Fin s2 s3' SC); [|exact Hren].
    apply (rename_relocated s k (a :: t) r o s1 s3'); auto; unfold moved_of; rewrite KO; [discriminate|exact Mv].
  - destruct (move_specified s1 r (o_path o) (a :: t)) eqn:MS; [|discriminate]. simpl in Hren.
    destruct (move_all s1 (moved_refs s1 (o_path o)) (o_path o) (a :: t)) as [s2|] eqn:MA; [|discriminate].
    destruct (rename_single s2 r (a :: t) true) as [s3|] eqn:R; [|discriminate].
    assert (HrM : ~ In r (moved_refs s1 (o_path o))).
    { intros Hin. apply in_moved_refs in Hin as [_ [x [H1 H2]]]. rewrite Hr in H1. inversion H1; subst x.
      rewrite Epath, is_under_irrefl in H2. discriminate. }
    rewrite <- Epath in MA at 2.
    destruct (move_then_single s1 (moved_refs s1 (o_path o)) r o1 (a :: t) s2 s3 MA HrM Hr R) as [s3' [Mv SC]].
    rewrite Epath in Mv.
    apply (Fin s3 s3' SC); [|exact Hren].
    apply (rename_relocated s k (a :: t) r o s1 s3'); auto; unfold moved_of; rewrite KO; auto.
Qed.

(* ------------------------------------------------------------------ paths *)
Lemma at_under_np c old P P' : np c P = np c P' -> at_under c old P -> at_under c old P'.
Proof.
  intros E [H1 H2].
  assert (HL : length P' = length P) by (rewrite <- (np_length c P'), <- E; apply np_length).
  split; [lia|]. rewrite np_firstn, <- E, <- np_firstn. exact H2.
Qed.

Lemma firstn_app_le {T} n (a b : list T) : n <= length a -> firstn n (a ++ b) = firstn n a.
Proof.
  intros H. rewrite firstn_app. replace (n - length a) with 0 by lia. simpl. apply app_nil_r.
Qed.

Lemma at_under_app c old rel : at_under c old (old ++ rel).
Proof.
  split; [rewrite app_length; lia|]. rewrite firstn_app_le by lia. rewrite firstn_all. reflexivity.
Qed.

Lemma np_suffix c old rel P : np c P = np c (old ++ rel) -> np c (skipn (length old) P) = np c rel.
Proof.
  intros E. rewrite np_skipn, E, np_app. rewrite <- (np_length c old). rewrite skipn_app, skipn_all, Nat.sub_diag. reflexivity.
Qed.

Lemma new_not_old c old p sufx rel : np c old <> np c p -> is_under c old p = false -> is_under c p old = false ->
  np c p ++ sufx = np c old ++ rel -> False.
Proof.
  intros Hne H1 H2 E.
  destruct (lt_eq_lt_dec (length p) (length old)) as [[Hlt|Heq]|Hgt].
  - assert (X : is_under c p old = true); [|congruence].
    apply is_under_spec. split; [exact Hlt|]. rewrite np_firstn.
    rewrite <- (firstn_app_le (length p) (np c old) rel) by (rewrite np_length; lia).
    rewrite <- E. rewrite firstn_app_le by (rewrite np_length; lia). rewrite <- (np_length c p). apply firstn_all.
  - apply Hne. apply (f_equal (firstn (length (np c p)))) in E.
    rewrite firstn_app_le, firstn_all in E by lia.
    rewrite firstn_app_le in E by (rewrite !np_length; lia).
    rewrite np_length, Heq, <- (np_length c old), firstn_all in E. congruence.
  - assert (X : is_under c old p = true); [|congruence].
    apply is_under_spec. split; [exact Hgt|]. rewrite np_firstn.
    rewrite <- (firstn_app_le (length old) (np c p) sufx) by (rewrite np_length; lia).
    rewrite E. rewrite firstn_app_le by (rewrite np_length; lia). rewrite <- (np_length c old). apply firstn_all.
Qed.

Lemma same_core_sym s s' : same_core s s' -> same_core s' s.
Proof. intros [A [B C]]. repeat split; congruence. Qed.

Lemma get_live_same_core s s' k : same_core s s' -> get_live s' k = get_live s k.
Proof. intros [A [B C]]. unfold get_live, get. rewrite B, C. reflexivity. Qed.

Lemma S_rename s k p : S_inv s -> S_inv (fst (rename s k p)).
Proof. intros H. pose proof (S_step s (ORename k p) H) as G. simpl in G. rewrite fst_rmap in G. exact G. Qed.

(* ------------------------------------------------------------------ the theorem *)
Theorem rename_moves_subtree s k p s' k' r o :
  INV s -> guard_op s (ORename k p) = true ->
  get_live s k = Some (r, o) -> rename s k p = (s', Ok k') -> path_eqb (o_path o) p = false ->
  let c := p_cfg s in let old := o_path o in
  p_cfg s' = c /\
  k' = (if c_oidpath c then KPath p else o_oid o) /\
  (forall rel q x, get_live s (pkey s (old ++ rel)) = Some (q, x) ->
     get_live s' (pkey s' (p ++ rel)) = Some (q, mv c old p x)) /\
  (np c old <> np c p -> forall rel, get_live s' (pkey s' (old ++ rel)) = None) /\
  (forall P q y, get_live s (pkey s P) = Some (q, y) -> ~ at_under c old P -> np c P <> np c p ->
     get_live s' (pkey s' P) = Some (q, y)) /\
  (forall P q y', get_live s' (pkey s' P) = Some (q, y') ->
     (exists rel x, np c P = np c (p ++ rel) /\ get_live s (pkey s (old ++ rel)) = Some (q, x) /\
                    y' = mv c old p x) \/
     (get_live s (pkey s P) = Some (q, y') /\ ~ at_under c old P)).
Proof.
  intros [HS HW] Hgd Hg Hren Hpe c old.
  destruct (rename_success_char s k p s' k' r o HS HW Hgd Hg Hren Hpe) as [s1 [s3 [PH [RL [SC [Hr1 Hk']]]]]].
  pose proof (moved_of_facts s k p r o s1 HS HW Hg PH) as [FL FA].
  destruct PH as [S1 W1 Ec Ed _ Ht Hlive Hsame].
  destruct RL as [W3 [Ec3 [Rmoved [Rstay [Rkeep [RC2 RC3]]]]]].
  rewrite Ec in Rmoved, Rkeep, RC2, RC3. fold c in Rmoved, Rkeep, RC2, RC3, FL, FA, Ht, Hsame. fold old in Rmoved, RC2, RC3, FL, FA.
  set (L := moved_of s1 o ++ [r]) in *.
  assert (Ecs' : p_cfg s' = c) by (destruct SC as [A _]; unfold c; congruence).
  assert (S3 : S_inv s3).
  { apply (S_same_core s' s3 (same_core_sym _ _ SC)). pose proof (S_rename s k p HS) as G. rewrite Hren in G. exact G. }
  assert (Ec3' : p_cfg s3 = c) by (unfold c; congruence).
  simpl in Hgd. rewrite Hg in Hgd. apply andb_true_iff in Hgd as [Hnr Hnu]. apply negb_true_iff in Hnu. fold c old in Hnu.
  pose proof Hg as Hg'. apply get_live_spec in Hg' as [G1 [G2 G3]].
  assert (Hown : dget (KPath (np c old)) (p_dict s) = Some r) by (apply (w_filed s HW r o G2 G3)).
  assert (Hp : p <> []) by (destruct p; [discriminate|congruence]).
  assert (Hnu2 : is_under c p old = false).
  { destruct (is_under c p old) eqn:U; [exfalso|reflexivity].
    assert (U1 : is_under (p_cfg s1) p (o_path o) = true) by (rewrite Ec; exact U).
    destruct (live_top s1 p S1 W1 _ r o eq_refl Hr1 G3 U1) as [q0 [y0 [T1 [T2 [T3 T4]]]]].
    rewrite Ec, Ed in T1. pose proof (Ht q0 y0 T1 T2 T3) as ->.
    rewrite <- Ed, <- Ec in T1. destruct (s_path s1 S1 _ _ T1) as [z [Hz Hq]]. rewrite Hr1 in Hz. inversion Hz; subst z.
    apply is_under_spec in U as [U _]. apply (f_equal (@length _)) in Hq. rewrite !np_length in Hq. fold old in Hq. lia. }
  (* cells of s that are not the deleted folder are the same in s1 *)
  assert (Hinto1 : forall q x, nth_error (p_heap s) q = Some x ->
            (np c (o_path x) <> np c p \/ q = r) -> nth_error (p_heap s1) q = Some x).
  { intros q x Hx [Hne| ->]; [|congruence].
    rewrite Hsame; [exact Hx|]. intros Q. destruct (s_path s HS _ _ Q) as [z [Hz Hq]].
    rewrite Hx in Hz. inversion Hz; subst z. contradiction. }
  assert (Hinto1' : forall q x, nth_error (p_heap s) q = Some x -> o_exists x = true ->
            at_under c old (o_path x) -> nth_error (p_heap s1) q = Some x).
  { intros q x Hx Hl AU. apply Hinto1; [exact Hx|].
    destruct (path_eq_dec (np c (o_path x)) (np c p)) as [E|E]; [right|left; exact E].
    destruct (at_under_cases _ _ _ (at_under_np c old _ _ E AU)) as [[_ E2]|E2]; [|congruence].
    pose proof (w_filed s HW q x Hx Hl) as F. fold c in F. rewrite E, E2, Hown in F. congruence. }
  split; [exact Ecs'|]. split; [exact Hk'|]. split; [|split; [|split]].
  - (* the subtree is found under the new paths *)
    intros rel q x Hgl. apply get_live_spec in Hgl as [Q1 [Q2 Q3]]. unfold pkey in Q1. fold c in Q1.
    destruct (s_path s HS _ _ Q1) as [z [Hz Hq]]. rewrite Q2 in Hz. inversion Hz; subst z. fold c in Hq.
    assert (AU : at_under c old (o_path x)) by (apply (at_under_np c old (old ++ rel)); [congruence|apply at_under_app]).
    pose proof (Hinto1' q x Q2 Q3 AU) as Q2'.
    pose proof (FA q x Q2' Q3 AU) as HinL.
    destruct (Rmoved q x HinL Q2') as [N1 N2].
    rewrite (get_live_same_core _ _ _ SC). apply get_live_spec. unfold pkey. rewrite Ecs'.
    split; [|split; [exact N1|exact Q3]].
    rewrite <- N2. f_equal. f_equal. rewrite np_new_path, np_app. f_equal. symmetry. apply np_suffix. exact Hq.
  - (* the old paths are free *)
    intros Hne rel. rewrite (get_live_same_core _ _ _ SC). unfold pkey. rewrite Ecs'.
    set (P := np c (old ++ rel)).
    assert (NotNew : forall q' x', In q' L -> nth_error (p_heap s1) q' = Some x' -> np c (new_path old p x') <> P).
    { intros q' x' _ _ E. unfold P in E. rewrite np_new_path, np_app in E.
      exact (new_not_old c old p _ _ Hne Hnu Hnu2 E). }
    assert (OldKey : forall q' x', In q' L -> nth_error (p_heap s1) q' = Some x' -> np c (o_path x') = P ->
                     dget (KPath P) (p_dict s) = Some q').
    { intros q' x' Hin Hx' E. destruct (FL q' Hin) as [x'' [H1 [_ H3]]]. rewrite Hx' in H1. inversion H1; subst x''.
      rewrite E in H3. exact H3. }
    apply get_live_none. intros q y D3 H3.
    destruct (dget (KPath P) (p_dict s)) as [q0|] eqn:DP.
    + destruct (in_dec Nat.eq_dec q0 L) as [Hin|Hnin].
      * destruct (FL q0 Hin) as [x0 [H1 _]].
        assert (DP1 : dget (KPath P) (p_dict s1) = Some q0) by (rewrite Ed; exact DP).
        destruct (s_path s1 S1 _ _ DP1) as [z [Hz Hq]]. rewrite H1 in Hz. inversion Hz; subst z. rewrite Ec in Hq. fold c in Hq.
        rewrite (RC2 P q0 x0 Hin H1 Hq NotNew) in D3. discriminate.
      * rewrite RC3, Ed, DP in D3.
        2:{ intros q' x' Hin Hx'. split; [apply (NotNew q' x' Hin Hx')|]. intros E.
            pose proof (OldKey q' x' Hin Hx' E) as X. try rewrite DP in X. inversion X. subst q'. contradiction. }
        inversion D3; subst q. rewrite (Rstay q0 Hnin) in H3.
        destruct (o_exists y) eqn:Ly; [exfalso|reflexivity].
        assert (DP1 : dget (KPath P) (p_dict s1) = Some q0) by (rewrite Ed; exact DP).
        destruct (s_path s1 S1 _ _ DP1) as [z [Hz Hq]]. rewrite H3 in Hz. inversion Hz; subst z. rewrite Ec in Hq. fold c in Hq.
        apply Hnin. apply (FA q0 y H3 Ly). apply (at_under_np c old (old ++ rel)); [symmetry; exact Hq|apply at_under_app].
    + rewrite RC3, Ed, DP in D3; [discriminate|].
      intros q' x' Hin Hx'. split; [apply (NotNew q' x' Hin Hx')|]. intros E.
      pose proof (OldKey q' x' Hin Hx' E) as X. try rewrite DP in X. discriminate.
  - (* what is outside the subtree (and is not the empty folder that was at the target) stays *)
    intros P q y Hgl Hnau Hnp. apply get_live_spec in Hgl as [Q1 [Q2 Q3]]. unfold pkey in Q1. fold c in Q1.
    destruct (s_path s HS _ _ Q1) as [z [Hz Hq]]. rewrite Q2 in Hz. inversion Hz; subst z. fold c in Hq.
    assert (Q2' : nth_error (p_heap s1) q = Some y) by (apply Hinto1; [exact Q2|left; congruence]).
    assert (Hnin : ~ In q L).
    { intros Hin. destruct (FL q Hin) as [x [H1 [AU _]]]. rewrite Q2' in H1. inversion H1; subst x.
      apply Hnau. apply (at_under_np c old (o_path y)); assumption. }
    rewrite (get_live_same_core _ _ _ SC). apply get_live_spec. unfold pkey. rewrite Ecs'.
    split; [|split; [rewrite (Rstay q Hnin); exact Q2'|exact Q3]].
    rewrite <- Hq. apply (Rkeep q y Q2' Q3 Hnin).
  - (* every live object afterwards is one of those *)
    intros P q y' Hgl. rewrite (get_live_same_core _ _ _ SC) in Hgl. apply get_live_spec in Hgl as [Q1 [Q2 Q3]].
    unfold pkey in Q1. rewrite Ecs' in Q1.
    destruct (s_path s3 S3 _ _ Q1) as [z [Hz Hq]]. rewrite Q2 in Hz. inversion Hz; subst z. rewrite Ec3' in Hq.
    destruct (in_dec Nat.eq_dec q L) as [Hin|Hnin].
    + left. destruct (FL q Hin) as [x [H1 [AU H3]]].
      destruct (Rmoved q x Hin H1) as [N1 _]. rewrite Q2 in N1. inversion N1; subst y'. simpl in Q3, Hq.
      exists (skipn (length old) (o_path x)), x. split; [symmetry; exact Hq|]. split; [|reflexivity].
      apply get_live_spec. unfold pkey. fold c. split; [|split; [apply (Hlive q x H1 Q3)|exact Q3]].
      rewrite np_app, <- (at_under_split c old (o_path x) AU). exact H3.
    + right. rewrite (Rstay q Hnin) in Q2. pose proof (Hlive q y' Q2 Q3) as Q2s. split.
      * apply get_live_spec. unfold pkey. fold c. split; [|auto]. rewrite <- Hq. apply (w_filed s HW q y' Q2s Q3).
      * intros AU. apply Hnin. apply (FA q y' Q2 Q3). apply (at_under_np c old P); [symmetry; exact Hq|exact AU].
Qed.
