(* MergeProofs.v — C04 at trace level: in an accepted check_spec run whose two users' operations
   are pairwise independent, at every quiet report both views equal the previously synchronised
   tree with side 0's operations and then side 1's operations applied (merge3) — whatever the
   real temporal interleaving was.  Combines MonitorProofs.quiet_views_are_history with
   TreeProofs.interleave_same_tree. *)
From Coq Require Import NArith List Bool Lia.
From CS Require Import Sx TreeModel Monitor MonitorProofs TreePaths TreeLookup TreeSem TreeCanon TreeProofs.
Import ListNotations.

(* the root-relative operations of the user of side s, in trace order *)
Fixpoint side_ops (cfg : config) (s : side) (tr : list obs) : list op :=
  match tr with
  | [] => []
  | x :: r =>
    match o_ev x with
    | EUser s' o =>
      if side_eqb s s' then
        match rel_op (root_of cfg s') o with
        | Some ro => ro :: side_ops cfg s r
        | None => side_ops cfg s r
        end
      else side_ops cfg s r
    | _ => side_ops cfg s r
    end
  end.

Lemma rel_user_ops_interleave cfg tr :
  interleave (side_ops cfg false tr) (side_ops cfg true tr) (rel_user_ops cfg tr).
Proof.
  induction tr as [|x r IH]; simpl; [constructor|].
  destruct (o_ev x) as [s o|s ts| |]; try exact IH.
  destruct s; simpl.
  - destruct (rel_op (rootR cfg) o); [apply il_right|]; exact IH.
  - destruct (rel_op (rootL cfg) o); [apply il_left|]; exact IH.
Qed.

Theorem quiet_views_are_merge cfg l r tr m' :
  check_spec cfg = true ->
  wf l ->
  accept cfg l r tr = inl m' ->
  forall pre x post, tr = pre ++ x :: post -> o_ev x = EQuiet ->
    disjoint (side_ops cfg false pre) (side_ops cfg true pre) = true ->
    view (rootL cfg) (o_L x) ~~ merge3 (view (rootL cfg) l) (side_ops cfg false pre) (side_ops cfg true pre) /\
    view (rootR cfg) (o_R x) ~~ merge3 (view (rootL cfg) l) (side_ops cfg false pre) (side_ops cfg true pre).
Proof.
  intros Hcs Hwf Hacc pre x post Heq Hq Hd.
  destruct (quiet_views_are_history cfg l r tr m' Hcs Hacc pre x post Heq Hq) as [H1 H2].
  assert (Hm : apply_ops (view (rootL cfg) l) (rel_user_ops cfg pre) ~~
               merge3 (view (rootL cfg) l) (side_ops cfg false pre) (side_ops cfg true pre)).
  { apply interleave_same_tree; [exact Hd|apply wf_view; exact Hwf|apply rel_user_ops_interleave]. }
  split; eapply same_tree_trans; eassumption.
Qed.

Print Assumptions quiet_views_are_merge.
