(* PropEntryPred.v — the second tie (DESIGN 2.4) for the decision predicates of cloudsync/sync/state.py and the backoff
   step of cloudsync/runnable.py, and the laws the engine relies on.  Re-checked by the Coq gate of C03 and C04
   (harness/entrypred.py).  Only statements closed by [exact], each followed by Print Assumptions; Examples = non-vacuity.

   Reading guide.  [gen_X] (GenEntryPred.v / GenBackoff.v) is the translation of the CURRENT source of X, regenerated
   before every check; the unprefixed name is the hand model (EntryPredModel.v / LoopModel.v).  A predicate's value is
   the CLASS of the Python value the function returns ([pyres]); [truth] is the truthiness every caller uses.  The
   laws are stated about the GENERATED definitions, i.e. about what the source says now, for ALL field values and every
   answer [pm e s] of the provider's path comparison.  The [..._full] statements that are refuted are written about
   the hand model (EntryPredLaws.v); by the EP_gen_*_eq theorems they are statements about the generated definitions. *)
From Coq Require Import QArith Qminmax Bool List NArith.
From CS Require Import LoopModel EntryPredModel GenEntryPred GenBackoff EntryPredGenEq BackoffGenEq EntryPredLaws
  EntryPredGenLaws.
Import ListNotations.
Open Scope Q_scope.

(* ================================================================== generated = model *)
Theorem EP_gen_is_corrupt_eq : forall e s, gen_is_corrupt e s = is_corrupt e s.
Proof. exact gen_is_corrupt_eq. Qed.
Print Assumptions EP_gen_is_corrupt_eq.

Theorem EP_gen_corrupt_exists_eq : forall e s, gen_corrupt_exists e s = corrupt_exists e s.
Proof. exact gen_corrupt_exists_eq. Qed.
Print Assumptions EP_gen_corrupt_exists_eq.

Theorem EP_gen_corrupt_gone_eq : forall e s, gen_corrupt_gone e s = corrupt_gone e s.
Proof. exact gen_corrupt_gone_eq. Qed.
Print Assumptions EP_gen_corrupt_gone_eq.

Theorem EP_gen_paths_match_eq : forall e s, gen_paths_match e s = paths_match e s.
Proof. exact gen_paths_match_eq. Qed.
Print Assumptions EP_gen_paths_match_eq.

Theorem EP_gen_paths_differ_eq : forall e s, gen_paths_differ e s = paths_differ e s.
Proof. exact gen_paths_differ_eq. Qed.
Print Assumptions EP_gen_paths_differ_eq.

Theorem EP_gen_side_needs_sync_eq : forall e s, gen_side_needs_sync e s = side_needs_sync e s.
Proof. exact gen_side_needs_sync_eq. Qed.
Print Assumptions EP_gen_side_needs_sync_eq.

Theorem EP_gen_hash_conflict_eq : forall e, gen_hash_conflict e = hash_conflict e.
Proof. exact gen_hash_conflict_eq. Qed.
Print Assumptions EP_gen_hash_conflict_eq.

Theorem EP_gen_is_path_change_eq : forall e s, gen_is_path_change e s = is_path_change e s.
Proof. exact gen_is_path_change_eq. Qed.
Print Assumptions EP_gen_is_path_change_eq.

Theorem EP_gen_is_deletion_eq : forall e s, gen_is_deletion e s = is_deletion e s.
Proof. exact gen_is_deletion_eq. Qed.
Print Assumptions EP_gen_is_deletion_eq.

Theorem EP_gen_is_creation_eq : forall e s, gen_is_creation e s = is_creation e s.
Proof. exact gen_is_creation_eq. Qed.
Print Assumptions EP_gen_is_creation_eq.

Theorem EP_gen_is_rename_eq : forall e s, gen_is_rename e s = is_rename e s.
Proof. exact gen_is_rename_eq. Qed.
Print Assumptions EP_gen_is_rename_eq.

Theorem EP_gen_needs_sync_eq : forall e, gen_needs_sync e = needs_sync e.
Proof. exact gen_needs_sync_eq. Qed.
Print Assumptions EP_gen_needs_sync_eq.

Theorem EP_gen_is_discarded_eq : forall e, gen_is_discarded e = is_discarded e.
Proof. exact gen_is_discarded_eq. Qed.
Print Assumptions EP_gen_is_discarded_eq.

Theorem EP_gen_is_irrelevant_eq : forall e, gen_is_irrelevant e = is_irrelevant e.
Proof. exact gen_is_irrelevant_eq. Qed.
Print Assumptions EP_gen_is_irrelevant_eq.

Theorem EP_gen_is_conflicted_eq : forall e, gen_is_conflicted e = is_conflicted e.
Proof. exact gen_is_conflicted_eq. Qed.
Print Assumptions EP_gen_is_conflicted_eq.

Theorem EP_gen_is_trash_eq : forall e, gen_is_trash e = is_trash e.
Proof. exact gen_is_trash_eq. Qed.
Print Assumptions EP_gen_is_trash_eq.

Theorem EP_gen_is_temp_rename_eq : forall e, gen_is_temp_rename e = is_temp_rename e.
Proof. exact gen_is_temp_rename_eq. Qed.
Print Assumptions EP_gen_is_temp_rename_eq.

Theorem EP_gen_is_latest_eq : forall e, gen_is_latest e = is_latest e.
Proof. exact gen_is_latest_eq. Qed.
Print Assumptions EP_gen_is_latest_eq.

Theorem EP_gen_is_latest_side_eq : forall e s, gen_is_latest_side e s = is_latest_side e s.
Proof. exact gen_is_latest_side_eq. Qed.
Print Assumptions EP_gen_is_latest_side_eq.

Theorem EP_gen_increment_backoff_eq : forall p b,
  gen_increment_backoff b (p_mult p) (p_min p) (p_max p) = increment p b.
Proof. exact gen_increment_backoff_eq. Qed.
Print Assumptions EP_gen_increment_backoff_eq.

Theorem EP_gen_after_do_eq : forall p b o, gen_after_do p b o = after_do p b o.
Proof. exact gen_after_do_eq. Qed.
Print Assumptions EP_gen_after_do_eq.

Theorem EP_gen_sleep_of_eq : forall p b, gen_sleep_of (p_sleep p) b = sleep_of p b.
Proof. exact gen_sleep_of_eq. Qed.
Print Assumptions EP_gen_sleep_of_eq.

(* ================================================================== laws, about the generated definitions *)
(* proved about the hand model in EntryPredLaws.v, carried over by the equalities above in EntryPredGenLaws.v *)
(* ---- needs_sync *)
Theorem EP_side_needs_sync_iff : forall e s,
  truth (gen_side_needs_sync e s) = true <->
  s_force (sd e s) = true \/
  (changed_truthy (sd e s) = true /\ has_oid (sd e s) = true /\
   (s_hash (sd e s) <> s_sync_hash (sd e s) \/ pm e s = false \/ ex_gone (s_exists (sd e s)) = true)).
Proof. exact g_side_needs_sync_iff. Qed.
Print Assumptions EP_side_needs_sync_iff.

(* needs_sync false => not forced, and: unchanged, or no id, or nothing differs (same hash, paths match, not gone) *)
Theorem EP_side_needs_sync_false : forall e s,
  truth (gen_side_needs_sync e s) = false ->
  s_force (sd e s) = false /\
  (changed_truthy (sd e s) = false \/ has_oid (sd e s) = false \/
   (s_hash (sd e s) = s_sync_hash (sd e s) /\ pm e s = true /\ ex_gone (s_exists (sd e s)) = false)).
Proof. exact g_side_needs_sync_false. Qed.
Print Assumptions EP_side_needs_sync_false.

(* the two-disjunct reading "needs_sync false => the side is unchanged or has no id" is false *)
Theorem EP_needs_sync_false_unchanged_or_no_id_refuted : ~ needs_sync_false_full.
Proof. exact needs_sync_false_full_refuted. Qed.
Print Assumptions EP_needs_sync_false_unchanged_or_no_id_refuted.

(* a side that was just finished (changed := 0; also None / False) never needs sync unless force_sync *)
Theorem EP_finished_side_quiet : forall e s,
  changed_truthy (sd e s) = false -> s_force (sd e s) = false -> truth (gen_side_needs_sync e s) = false.
Proof. exact g_finished_side_quiet. Qed.
Print Assumptions EP_finished_side_quiet.

Theorem EP_forced_needs_sync : forall e s, s_force (sd e s) = true -> gen_side_needs_sync e s = RTrue.
Proof. exact g_forced_needs_sync. Qed.
Print Assumptions EP_forced_needs_sync.

Theorem EP_finished_side_quiet_without_force_hypothesis_refuted : ~ finished_side_quiet_full.
Proof. exact finished_side_quiet_full_refuted. Qed.
Print Assumptions EP_finished_side_quiet_without_force_hypothesis_refuted.

Theorem EP_needs_sync_iff : forall e,
  truth (gen_needs_sync e) = true <->
  truth (gen_side_needs_sync e SL) = true \/ truth (gen_side_needs_sync e SR) = true.
Proof. exact g_needs_sync_iff. Qed.
Print Assumptions EP_needs_sync_iff.

(* result classes: a truthy needs_sync is True; a falsy one need not be a bool (None, 0, '') *)
Theorem EP_side_needs_sync_truthy_is_True : forall e s,
  truth (gen_side_needs_sync e s) = true -> gen_side_needs_sync e s = RTrue.
Proof. exact g_side_needs_sync_truthy_is_True. Qed.
Print Assumptions EP_side_needs_sync_truthy_is_True.

Theorem EP_side_needs_sync_returns_bool_refuted : ~ side_needs_sync_bool_full.
Proof. exact side_needs_sync_bool_full_refuted. Qed.
Print Assumptions EP_side_needs_sync_returns_bool_refuted.

(* ---- creation / deletion / rename *)
Theorem EP_is_creation_iff : forall e s,
  truth (gen_is_creation e s) = true <->
  s_path (sd e s) = SFull /\ s_exists (sd e s) = XExists /\ truth (gen_side_needs_sync e s) = true /\
  (has_oid (sd e (other s)) = false \/ ex_deleted (s_exists (sd e (other s))) = true \/
   (s_exists (sd e (other s)) = XCorrupt /\ exists y, s_saved (sd e (other s)) = Some y /\ ex_gone y = true)).
Proof. exact g_is_creation_iff. Qed.
Print Assumptions EP_is_creation_iff.

Theorem EP_is_creation_bool : forall e s, is_bool (gen_is_creation e s).
Proof. exact g_is_creation_bool. Qed.
Print Assumptions EP_is_creation_bool.

(* a creation is always something its own side needs to sync: never a side that was just finished *)
Theorem EP_creation_needs_sync : forall e s,
  truth (gen_is_creation e s) = true ->
  truth (gen_side_needs_sync e s) = true /\ truth (gen_needs_sync e) = true.
Proof. exact g_creation_needs_sync. Qed.
Print Assumptions EP_creation_needs_sync.

Theorem EP_is_deletion_iff : forall e s,
  truth (gen_is_deletion e s) = true <->
  s_exists (sd e (other s)) = XExists /\ (s_exists (sd e s) = XTrashed \/ s_exists (sd e s) = XMissing) /\
  changed_truthy (sd e s) = true.
Proof. exact g_is_deletion_iff. Qed.
Print Assumptions EP_is_deletion_iff.

(* is_deletion never returns True: when truthy it returns the side's change stamp *)
Theorem EP_is_deletion_truthy_is_stamp : forall e s,
  truth (gen_is_deletion e s) = true -> gen_is_deletion e s = RObj.
Proof. exact g_is_deletion_truthy_is_stamp. Qed.
Print Assumptions EP_is_deletion_truthy_is_stamp.

(* a deletion of an object that has an id is never skipped by needs_sync *)
Theorem EP_deletion_with_id_needs_sync : forall e s,
  truth (gen_is_deletion e s) = true -> has_oid (sd e s) = true -> truth (gen_side_needs_sync e s) = true.
Proof. exact g_deletion_with_id_needs_sync. Qed.
Print Assumptions EP_deletion_with_id_needs_sync.

Theorem EP_deletion_needs_sync_without_id_refuted : ~ deletion_needs_sync_full.
Proof. exact deletion_needs_sync_full_refuted. Qed.
Print Assumptions EP_deletion_needs_sync_without_id_refuted.

(* exclusive pairs *)
Theorem EP_creation_deletion_exclusive : forall e s,
  truth (gen_is_creation e s) = true -> truth (gen_is_deletion e s) = false.
Proof. exact g_creation_deletion_exclusive. Qed.
Print Assumptions EP_creation_deletion_exclusive.

Theorem EP_deletion_both_sides_exclusive : forall e s,
  truth (gen_is_deletion e s) = true -> truth (gen_is_deletion e (other s)) = false.
Proof. exact g_deletion_both_sides_exclusive. Qed.
Print Assumptions EP_deletion_both_sides_exclusive.

(* both sides creations at once only when BOTH are forced; otherwise at most one side is a creation *)
Theorem EP_creation_both_sides_forced : forall e s,
  truth (gen_is_creation e s) = true -> truth (gen_is_creation e (other s)) = true ->
  s_force (sd e s) = true /\ s_force (sd e (other s)) = true.
Proof. exact g_creation_both_sides_forced. Qed.
Print Assumptions EP_creation_both_sides_forced.

Theorem EP_creation_one_side_unless_forced : forall e s,
  s_force (sd e s) = false -> truth (gen_is_creation e s) = true -> truth (gen_is_creation e (other s)) = false.
Proof. exact g_creation_one_side_unless_forced. Qed.
Print Assumptions EP_creation_one_side_unless_forced.

(* the pairs that are NOT exclusive (witnesses in EntryPredLaws.v) *)
Theorem EP_creation_both_sides_exclusive_refuted : ~ creation_both_sides_exclusive_full.
Proof. exact creation_both_sides_exclusive_full_refuted. Qed.
Print Assumptions EP_creation_both_sides_exclusive_refuted.

Theorem EP_creation_rename_exclusive_refuted : ~ creation_rename_exclusive_full.
Proof. exact creation_rename_exclusive_full_refuted. Qed.
Print Assumptions EP_creation_rename_exclusive_refuted.

Theorem EP_deletion_rename_exclusive_refuted : ~ deletion_rename_exclusive_full.
Proof. exact deletion_rename_exclusive_full_refuted. Qed.
Print Assumptions EP_deletion_rename_exclusive_refuted.

Theorem EP_creation_other_side_deletion_exclusive_refuted : ~ creation_other_deletion_exclusive_full.
Proof. exact creation_other_deletion_exclusive_full_refuted. Qed.
Print Assumptions EP_creation_other_side_deletion_exclusive_refuted.

(* rename = path change of a side that has a path; path change = a synced path and the provider says "differ" *)
Theorem EP_is_rename_iff : forall e s,
  truth (gen_is_rename e s) = true <-> truth (gen_is_path_change e s) = true /\ has_path (sd e s) = true.
Proof. exact g_is_rename_iff. Qed.
Print Assumptions EP_is_rename_iff.

Theorem EP_is_path_change_iff : forall e s,
  truth (gen_is_path_change e s) = true <-> s_sync_path (sd e s) = SFull /\ pm e s = false.
Proof. exact g_is_path_change_iff. Qed.
Print Assumptions EP_is_path_change_iff.

Theorem EP_path_change_needs_sync : forall e s,
  truth (gen_is_path_change e s) = true -> changed_truthy (sd e s) = true -> has_oid (sd e s) = true ->
  truth (gen_side_needs_sync e s) = true.
Proof. exact g_path_change_needs_sync. Qed.
Print Assumptions EP_path_change_needs_sync.

(* ---- hash_conflict *)
(* both sides have a hash and a path and BOTH changed their hash with respect to the synced hash *)
Theorem EP_hash_conflict_iff : forall e,
  truth (gen_hash_conflict e) = true <->
  has_hash (e_local e) = true /\ has_hash (e_remote e) = true /\
  s_path (e_local e) = SFull /\ s_path (e_remote e) = SFull /\
  s_hash (e_local e) <> s_sync_hash (e_local e) /\ s_hash (e_remote e) <> s_sync_hash (e_remote e).
Proof. exact g_hash_conflict_iff. Qed.
Print Assumptions EP_hash_conflict_iff.

Theorem EP_hash_conflict_bool : forall e, is_bool (gen_hash_conflict e).
Proof. exact g_hash_conflict_bool. Qed.
Print Assumptions EP_hash_conflict_bool.

(* it does NOT compare the two sides with each other: the same new content on both sides is a hash_conflict *)
Theorem EP_hash_conflict_sides_differ_refuted : ~ hash_conflict_sides_differ_full.
Proof. exact hash_conflict_sides_differ_full_refuted. Qed.
Print Assumptions EP_hash_conflict_sides_differ_refuted.

Theorem EP_hash_conflict_needs_sync : forall e s,
  truth (gen_hash_conflict e) = true -> changed_truthy (sd e s) = true -> has_oid (sd e s) = true ->
  truth (gen_side_needs_sync e s) = true.
Proof. exact g_hash_conflict_needs_sync. Qed.
Print Assumptions EP_hash_conflict_needs_sync.

(* ---- ignore reasons, trash *)
Theorem EP_is_discarded_iff : forall e,
  gen_is_discarded e = RTrue <-> e_ignored e = IDiscarded \/ e_ignored e = IIrrelevant.
Proof. exact g_is_discarded_iff. Qed.
Print Assumptions EP_is_discarded_iff.

Theorem EP_ignore_flags_bool : forall e,
  is_bool (gen_is_discarded e) /\ is_bool (gen_is_irrelevant e) /\ is_bool (gen_is_conflicted e) /\
  is_bool (gen_is_temp_rename e).
Proof. exact g_ignore_flags_bool. Qed.
Print Assumptions EP_ignore_flags_bool.

Theorem EP_irrelevant_is_discarded : forall e, gen_is_irrelevant e = RTrue -> gen_is_discarded e = RTrue.
Proof. exact g_irrelevant_is_discarded. Qed.
Print Assumptions EP_irrelevant_is_discarded.

Theorem EP_ignore_flags_exclusive : forall e,
  (gen_is_discarded e = RTrue -> gen_is_conflicted e = RFalse /\ gen_is_temp_rename e = RFalse) /\
  (gen_is_conflicted e = RTrue -> gen_is_discarded e = RFalse /\ gen_is_temp_rename e = RFalse) /\
  (gen_is_temp_rename e = RTrue -> gen_is_discarded e = RFalse /\ gen_is_conflicted e = RFalse).
Proof. exact g_ignore_flags_exclusive. Qed.
Print Assumptions EP_ignore_flags_exclusive.

Theorem EP_is_trash_iff : forall e,
  gen_is_trash e = RTrue <-> s_oid (e_local e) = SNone /\ s_oid (e_remote e) = SNone.
Proof. exact g_is_trash_iff. Qed.
Print Assumptions EP_is_trash_iff.

Theorem EP_trash_needs_sync_only_forced : forall e s,
  gen_is_trash e = RTrue -> truth (gen_side_needs_sync e s) = s_force (sd e s).
Proof. exact g_trash_needs_sync_only_forced. Qed.
Print Assumptions EP_trash_needs_sync_only_forced.

(* `oid is None` is not truthiness: ids '' are falsy for needs_sync / is_creation but the entry is not trash *)
Theorem EP_trash_iff_no_truthy_id_refuted : ~ trash_iff_no_id_full.
Proof. exact trash_iff_no_id_full_refuted. Qed.
Print Assumptions EP_trash_iff_no_truthy_id_refuted.

(* ---- is_latest, corrupt marker *)
Theorem EP_is_latest_iff : forall e,
  truth (gen_is_latest e) = true <->
  truth (gen_is_latest_side e SL) = true /\ truth (gen_is_latest_side e SR) = true.
Proof. exact g_is_latest_iff. Qed.
Print Assumptions EP_is_latest_iff.

Theorem EP_is_latest_side_iff : forall e s,
  truth (gen_is_latest_side e s) = true <-> max_changed e <= s_last_gotten (sd e s).
Proof. exact g_is_latest_side_iff. Qed.
Print Assumptions EP_is_latest_side_iff.

Theorem EP_corrupt_gone_is_corrupt : forall e s,
  truth (gen_corrupt_gone e s) = true -> gen_is_corrupt e s = RTrue /\ gen_corrupt_exists e s = RFalse.
Proof. exact g_corrupt_gone_is_corrupt. Qed.
Print Assumptions EP_corrupt_gone_is_corrupt.

Theorem EP_corrupt_alone_quiet : forall e s,
  s_exists (sd e s) = XCorrupt -> s_force (sd e s) = false -> s_hash (sd e s) = s_sync_hash (sd e s) -> pm e s = true ->
  truth (gen_side_needs_sync e s) = false.
Proof. exact g_corrupt_alone_quiet. Qed.
Print Assumptions EP_corrupt_alone_quiet.

(* ---- the backoff step of Runnable, as the source computes it now *)
Theorem EP_backoff_range : forall b mult mn mx,
  mn <= mx -> mn <= gen_increment_backoff b mult mn mx /\ gen_increment_backoff b mult mn mx <= mx.
Proof. exact gen_increment_range. Qed.
Print Assumptions EP_backoff_range.

Theorem EP_backoff_first : forall b mult mn mx,
  0 < mn -> mn <= mx -> b == 0 -> gen_increment_backoff b mult mn mx == mn.
Proof. exact gen_increment_first. Qed.
Print Assumptions EP_backoff_first.

Theorem EP_backoff_step : forall b mult mn mx,
  1 <= mult -> 0 < mn -> mn <= mx -> mn <= b -> b <= mx ->
  gen_increment_backoff b mult mn mx == Qmin mx (b * mult).
Proof. exact gen_increment_step. Qed.
Print Assumptions EP_backoff_step.

Theorem EP_backoff_cleared_on_success : forall b, 0 <= b -> gen_after_success true b == 0.
Proof. exact gen_after_success_clears. Qed.
Print Assumptions EP_backoff_cleared_on_success.

Theorem EP_backoff_kept_when_nothing_happened : forall b, gen_after_success false b = b.
Proof. exact gen_after_success_keeps. Qed.
Print Assumptions EP_backoff_kept_when_nothing_happened.

(* every failure kind (backoff request, Exception, BaseException) takes the same step *)
Theorem EP_backoff_every_failure_increments : forall p b o,
  is_failure o = true -> gen_after_do p b o = gen_increment_backoff b (p_mult p) (p_min p) (p_max p).
Proof. exact g_backoff_every_failure_increments. Qed.
Print Assumptions EP_backoff_every_failure_increments.

(* ================================================================== non-vacuity *)
(* every predicate takes both truth values, and the non-bool classes do occur *)
Example EP_examples_classes :
  gen_side_needs_sync (mk side0 side0) SL = RNone /\
  gen_side_needs_sync (mk (synced_side (CNum 0)) side0) SL = RZero /\
  gen_side_needs_sync (mk (synced_side CFalse) side0) SL = RFalse /\
  gen_side_needs_sync (mk empty_oid_side side0) SL = RNone /\
  gen_side_needs_sync (mk (new_side SNone) side0) SL = RTrue /\
  gen_side_needs_sync (mk (synced_side (CNum 5)) side0) SL = RFalse /\
  gen_is_deletion (mk gone_side (synced_side CNone)) SL = RObj /\
  gen_is_deletion (mk (new_side SNone) side0) SL = RFalse /\
  gen_is_path_change (mk side0 side0) SL = RNone /\
  gen_is_rename (mkp (new_side SFull) side0 false true) SL = RTrue.
Proof. vm_compute. repeat split. Qed.

Example EP_examples_truth :
  truth (gen_is_creation (mk (new_side SNone) side0) SL) = true /\
  truth (gen_is_creation (mk (synced_side (CNum 5)) side0) SL) = false /\
  truth (gen_hash_conflict (mk (new_side SNone) (new_side SNone))) = true /\
  truth (gen_hash_conflict (mk (new_side SNone) (synced_side CNone))) = false /\
  gen_is_trash (mk side0 side0) = RTrue /\ gen_is_trash (mk empty_oid_side side0) = RFalse /\
  truth (gen_is_latest (mk (synced_side (CNum 5)) side0)) = false /\
  truth (gen_is_latest (mk (synced_side (CNum 0)) side0)) = true /\
  truth (gen_needs_sync (mk side0 (new_side SNone))) = true.
Proof. vm_compute. repeat split. Qed.

(* both sides creations at once: the hypothesis of EP_creation_both_sides_forced is satisfiable *)
Example EP_creation_both_sides_nonvacuous :
  truth (gen_is_creation (mk (forced_new false) (forced_new false)) SL) = true /\
  truth (gen_is_creation (mk (forced_new false) (forced_new false)) SR) = true.
Proof. vm_compute. split; reflexivity. Qed.

Example EP_backoff_nonvacuous :
  map (fun b => Qred (gen_increment_backoff b 2 (1 # 100) 1)) [0; 1 # 100; 1 # 50; 3 # 5; 1] =
  [1 # 100; 1 # 50; 1 # 25; 1; 1].
Proof. vm_compute. reflexivity. Qed.
