(* FaultMonitor.v — a provider call of the engine that fails (injected fault, or a provider error) leaves both
   trees as they are: for the acceptor it is a stutter.  Hence faults are invisible in the observation trace and the
   C01/C02 guards of Monitor.accept speak about runs with faults exactly as about runs without. *)
From Coq Require Import NArith List Bool.
From CS Require Import Sx TreeModel TreeCanon Monitor.
Import ListNotations.

Lemma failed_action_is_stutter cfg m s ts :
  forallb (is_prefix (root_of cfg s)) ts = true -> existsb (has_declined cfg) ts = false -> quiet m = false ->
  (cov_every_step cfg = true -> all_live (cov m) (tL m) (tR m) = true) ->
  mstep cfg m {| o_ev := EEng s ts; o_L := tL m; o_R := tR m |} =
  inl {| tL := tL m; tR := tR m; spec := spec m; cov := cov m; steps := steps m; quiet := quiet m |}.
Proof.
  intros Hp Hd Hq Hc. unfold mstep. cbn [o_ev o_L o_R]. rewrite Hp. cbn [negb]. rewrite Hd.
  assert (Ec : cov_every_step cfg && negb (all_live (cov m) (tL m) (tR m)) = false).
  { destruct (cov_every_step cfg); [rewrite (Hc eq_refl)|]; reflexivity. }
  unfold tree_of. destruct s; destruct (origin cfg) as [[|]|];
    rewrite ?same_tree_refl; cbn [andb negb side_eqb Bool.eqb]; rewrite ?same_tree_refl; cbn [andb negb];
    rewrite Hq, Ec; reflexivity.
Qed.
